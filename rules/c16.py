"""C16 - directory population mirrors the file tree under the rules."""
import ast
import builtins

from dlint.model import AnalysisError, dotted, norm, strip_docstring
from dlint.walk import Domain, Walker, loopvar_name

EXPLANATION = (
    'Static rules over DirectoryResourcePopulator (desper/model/__init__.py). '
    'names: scope resolution - every name loaded in the package resolves to a '
    'parameter, a local, an enclosing / module / star-imported name or a '
    'builtin (an unbound name in the not-a-directory branch turns the '
    'intended ValueError into NameError). optional: the three None-defaulted '
    'options of __call__ fall back to the constructor values by identity '
    'test only. forward: add_rule builds the rule with arguments matching '
    'the dataclass fields by position; instantiate forwards (filename, *args, '
    '**kwargs). body: the loop body of __call__ is walked path by path '
    '(PathEval over the atoms exists / isdir / extension filter / trim / '
    'isfile / key taken / nest_on_conflict / top-layer hit): the rule '
    'directory is exactly join(root, rule.directory_path), missing -> skip, '
    'not a directory -> ValueError; iglob(join(dir, "**"), recursive=True); '
    'the filter compares splitext(path)[1] with rule.file_exts and only when '
    'the rule has extensions; the key is the normalised path relative to '
    'root, extension dropped exactly under trim_extensions and isfile; the '
    'same key is used for the conflict / sub-map lookups and for the store; '
    'one instantiate(path) per accepted file, a new sub-map only for an '
    'untaken directory key, a new ChainMap layer exactly under '
    'nest_on_conflict and a top-layer hit; one store per accepted entry.')
RULE = 'one obligation per (rule, function, statement)'
NOT_DECIDED = [
    'the central clause - the map mirrors an arbitrary directory tree - '
    'depends on glob/os.path and the file system; decided only modulo '
    '"iglob(dir/**, recursive=True) enumerates everything under dir" (it '
    'skips dot-files)',
    'back-links of implicitly created sub-maps (C11)']
ASSUMPTIONS = ['os.path.exists/isdir/isfile/relpath/normpath/splitext and '
               'glob.iglob behave as documented']


def check_names(program, rep):
    """Scope resolution over the whole package."""
    bnames = set(dir(builtins)) | {'__class__', '__name__', '__file__',
                                   '__doc__', '__qualname__',
                                   '__module__'}
    n_checked = 0
    for m in program.modules.values():
        modnames = set(program.module_names(m.name)) | {
            '__name__', '__file__', '__doc__'}
        for st in m.tree.body:
            for t in ast.walk(st) if isinstance(st, (ast.Assign,
                                                     ast.AnnAssign)) else ():
                if isinstance(t, ast.Name) and isinstance(t.ctx, ast.Store):
                    modnames.add(t.id)

        def scan(fnode, outer, site):
            nonlocal n_checked
            local = set(outer)
            a = fnode.args
            for x in a.posonlyargs + a.args + a.kwonlyargs:
                local.add(x.arg)
            if a.vararg:
                local.add(a.vararg.arg)
            if a.kwarg:
                local.add(a.kwarg.arg)
            nested = []

            def collect(n):
                for c in ast.iter_child_nodes(n):
                    if isinstance(c, (ast.FunctionDef, ast.AsyncFunctionDef)):
                        local.add(c.name)
                        nested.append(c)
                        continue
                    if isinstance(c, ast.ClassDef):
                        local.add(c.name)
                        for b in c.body:
                            if isinstance(b, ast.FunctionDef):
                                nested.append(b)
                        continue
                    if isinstance(c, ast.Lambda):
                        continue
                    if isinstance(c, ast.Name) and isinstance(
                            c.ctx, (ast.Store, ast.Del)):
                        local.add(c.id)
                    if isinstance(c, ast.ExceptHandler) and c.name:
                        local.add(c.name)
                    if isinstance(c, (ast.Import, ast.ImportFrom)):
                        for al in c.names:
                            local.add((al.asname or al.name).split('.')[0])
                    collect(c)
            collect(fnode)

            def loads(n, bound):
                for c in ast.iter_child_nodes(n):
                    if isinstance(c, (ast.FunctionDef, ast.AsyncFunctionDef,
                                      ast.ClassDef)):
                        continue
                    if isinstance(c, ast.Lambda):
                        b2 = set(bound) | {x.arg for x in c.args.args}
                        loads(c, b2)
                        continue
                    if isinstance(c, ast.Name) and isinstance(c.ctx,
                                                              ast.Load):
                        n_checked_inc()
                        if c.id not in bound and c.id not in modnames \
                                and c.id not in bnames:
                            yield_bad.append((c, site))
                    loads(c, bound)
            loads(fnode, local)
            for nf in nested:
                scan(nf, local, site)

        yield_bad = []
        cnt = [0]

        def n_checked_inc():
            cnt[0] += 1
        for c in m.classes.values():
            for f in c.methods.values():
                scan(f.node, set(c.attrs) | set(c.methods), f.where)
        for f in m.functions.values():
            scan(f.node, set(), f.where)
        n_checked += cnt[0]
        for node, site in yield_bad:
            in_prop = 'DirectoryResourcePopulator' in site
            if in_prop:
                rep.bad('C16.names', site, node.id,
                        f'the name `{node.id}` is bound nowhere (not a '
                        'parameter, local, module-level, imported or builtin '
                        'name): evaluating it raises NameError - here it '
                        'replaces the intended ValueError for a rule path '
                        'that is not a directory', line=node.lineno)
            else:
                rep.advisories.append(f'{site}:{node.lineno}: unbound name '
                                      f'{node.id}')
    rep.count('name_loads_resolved', n_checked)
    rep.floor('C16.names', 'name loads resolved in the package', n_checked,
              500)
    if not any(o.rule == 'C16.names' and o.verdict == 'violated'
               for o in rep.obs):
        rep.ok('C16.names', 'desper/model/__init__.py:'
               'DirectoryResourcePopulator.__call__', 'all loaded names',
               'every name loaded in the populator resolves')


def check_optional(program, rep):
    """Every use of a None-defaulted option reads the per-call value unless
    that value is None (identity test), else the value given at construction.
    Decided on the paths of __call__ (helpers that resolve the options are
    followed)."""
    f = program.method('DirectoryResourcePopulator', '__call__')
    cls = program.cls('DirectoryResourcePopulator')
    a = f.node.args
    defaults = dict(zip([x.arg for x in reversed(a.args)],
                        reversed(a.defaults)))
    opts = [p for p, d in defaults.items() if isinstance(d, ast.Constant)
            and d.value is None]
    rep.floor('C16.optional', 'None-defaulted options of __call__',
              len(opts), 3)
    exits = Walker(program, _D(program)).run(f, cls)
    for p in sorted(opts):
        good = {f'self.{p} if {p} is None else {p}',
                f'{p} if {p} is not None else self.{p}',
                f'{p} if not {p} is None else self.{p}'}
        bad = None
        n_use = 0
        for ex in exits:
            is_none = None
            for e in ex.state.trace:
                if e.sym is None or e.kind not in ('cond', 'call', 'local',
                                                   'store', 'for'):
                    continue
                t = e.sym.text
                if e.kind == 'cond' and t == f'{p} is None':
                    is_none = e.extra
                    continue
                names = {n.id for n in ast.walk(e.sym.node)
                         if isinstance(n, ast.Name)}
                attrs = {norm(n) for n in ast.walk(e.sym.node)
                         if isinstance(n, ast.Attribute)}
                if p not in names and f'self.{p}' not in attrs:
                    continue
                if e.kind == 'local' and isinstance(e.target, ast.Name) \
                        and e.target.id == p:
                    continue            # the fallback assignment itself
                if e.kind == 'call' and isinstance(e.sym.node, ast.Call) and (
                        dotted(e.sym.node.func) or '').split('.')[-1] \
                        .startswith('_') and getattr(e, 'func', None) \
                        is not None:
                    continue            # handed to a helper that is followed
                n_use += 1
                # strip the accepted conditional forms, then look at what
                # remains of the option in the expression
                rest = t
                for g in good:
                    rest = rest.replace(f'({g})', 'OK').replace(g, 'OK')
                try:
                    tree = ast.parse(rest, mode='eval').body
                except SyntaxError:
                    tree = e.sym.node
                bare = any(isinstance(n, ast.Name) and n.id == p
                           for n in ast.walk(tree))
                ctor = any(norm(n) == f'self.{p}' for n in ast.walk(tree)
                           if isinstance(n, ast.Attribute))
                if bare and is_none is not False:
                    bad = bad or (e.node, f'`{p}` is used ({t[:80]}) on a path '
                                  f'that has not established "{p} is not '
                                  'None": a falsy value (False, "") given per '
                                  'call is taken for "not given", or None '
                                  'itself is used')
                if ctor and is_none is not True:
                    bad = bad or (e.node, f'the constructor value self.{p} is '
                                  f'used ({t[:80]}) on a path that has not '
                                  f'established "{p} is None": a per-call '
                                  'value is ignored')
        if n_use == 0:
            rep.inconclusive('C16.optional', f.where, p,
                             f'no use of the option `{p}` found on the paths '
                             'of __call__', line=f.node.lineno)
            continue
        rep.check(bad is None, 'C16.optional', f.where,
                  bad[0] if bad else p,
                  f'{p}: per-call value wins unless it is None', bad[1]
                  if bad else '', line=getattr(bad[0], 'lineno',
                                               f.node.lineno)
                  if bad else f.node.lineno)


def check_forward(program, rep):
    rule = program.cls('DirectoryPopulatorRule')
    fields = [s.target.id for s in rule.node.body
              if isinstance(s, ast.AnnAssign)]
    add = program.method('DirectoryResourcePopulator', 'add_rule')
    calls = [n for n in ast.walk(add.node) if isinstance(n, ast.Call)
             and dotted(n.func) == 'DirectoryPopulatorRule']
    a = add.node.args
    want = {'directory_path': a.args[1].arg, 'handle_type': a.args[2].arg,
            'args': a.vararg.arg if a.vararg else None,
            'kwargs': a.kwarg.arg if a.kwarg else None}
    ok = False
    got = {}
    if len(calls) == 1:
        c = calls[0]
        for i, x in enumerate(c.args):
            if i < len(fields):
                got[fields[i]] = norm(x)
        for k in c.keywords:
            got[k.arg] = norm(k.value)
        fe = got.get('file_exts')
        ok = all(got.get(k) == v for k, v in want.items()) and fe in (
            'set(file_exts)', 'file_exts', 'frozenset(file_exts)',
            'tuple(file_exts)')
        stored = any(isinstance(n, ast.Call) and norm(n.func)
                     == 'self.rules.append' and n.args and n.args[0] is c
                     for n in ast.walk(add.node))
        ok = ok and stored
    rep.check(ok, 'C16.forward', add.where, calls[0] if calls else 'add_rule',
              'the rule records directory, factory, extra positional args, '
              'extensions and extra keyword args in their own fields, and is '
              'appended to the rules',
              f'add_rule builds the rule as {got}; the dataclass fields are '
              f'{fields}: an argument lands in the wrong field or is lost',
              line=add.node.lineno)
    inst = rule.methods.get('instantiate')
    body = [s for s in strip_docstring(inst.node.body)]
    fn = inst.params()[1]
    ok = len(body) == 1 and isinstance(body[0], ast.Return) and norm(
        body[0].value) == f'self.handle_type({fn}, *self.args, **self.kwargs)'
    if not ok:
        # path based: on every returning path the factory is called once with
        # the file name; *self.args / **self.kwargs may be left out only on a
        # path that found them empty
        exits = Walker(program, Domain(program)).run(inst, rule)
        ok = bool(exits)
        for ex in exits:
            if ex.kind != 'return' or ex.payload is None:
                ok = False
                continue
            conds = {e.sym.text: e.extra for e in ex.state.trace
                     if e.kind == 'cond'}
            rv = ex.payload.node
            if not (isinstance(rv, ast.Call) and norm(rv.func)
                    == 'self.handle_type' and rv.args
                    and norm(rv.args[0]) == fn):
                ok = False
                continue
            rest = [norm(a) for a in rv.args[1:]]
            kws = [(k.arg, norm(k.value)) for k in rv.keywords]
            empty_a = conds.get('self.args') is False or conds.get(
                'len(self.args)') is False
            empty_k = conds.get('self.kwargs') is False or conds.get(
                'len(self.kwargs)') is False
            if not (rest == ['*self.args'] or (rest == [] and empty_a)):
                ok = False
            if not (kws == [(None, 'self.kwargs')] or (kws == []
                                                       and empty_k)):
                ok = False
    rep.check(ok, 'C16.forward', inst.where, body[0] if body else 'instantiate',
              'the factory receives the file path and the rule\'s extra '
              'arguments', 'instantiate does not return handle_type(filename, '
              '*self.args, **self.kwargs)', line=inst.node.lineno)


class _D(Domain):
    loop_bound = 1

    def resolve_call(self, st, call, walker):
        # private helpers extracted from the analysed code are followed
        # (rule.instantiate is the factory call the rules look for)
        r = walker.resolve_helper(st, call, skip={'instantiate'})
        if r is None and isinstance(call.func, ast.Attribute) and not (
                isinstance(call.func.value, ast.Name)
                and call.func.value.id == 'self'):
            # a method of the rule record (rule.accepts(path), ...): the one
            # class of this module that defines it
            mod = st.frame.func.module
            owners = [c for c in mod.classes.values()
                      if call.func.attr in c.methods
                      and c.name.endswith('Rule')]
            if len(owners) == 1 and call.func.attr != 'instantiate':
                m = owners[0].methods[call.func.attr]
                if m.kind == 'method':
                    return m, owners[0], walker.canon(st, call.func.value)
        return r

    def resolve_setter(self, st, target, walker):
        return None

    def for_counts(self, st, node, itersym):
        return [1]

    def decide(self, st, sym, node):
        from dlint.walk import fold_truth
        n = sym.node
        if isinstance(n, ast.Compare) and len(n.ops) == 1 and isinstance(
                n.ops[0], ast.Is) and isinstance(
                    n.comparators[0], ast.Constant) \
                and n.comparators[0].value is None and isinstance(
                    n.left, ast.Call):
            d = norm(n.left.func)
            if d == 'ResourceMap' or d.endswith('.instantiate'):
                return False
        return fold_truth(n)


def check_body(program, rep):
    c = program.cls('DirectoryResourcePopulator')
    f = c.methods.get('__call__')
    site = f.where
    mp = f.params()[1]
    w = Walker(program, _D(program))
    exits = w.run(f, c)
    rep.count('paths', len(exits))
    bad = {}
    unsure_layer = None
    cnt = {'filter': 0, 'store': 0, 'inst': 0, 'submap': 0, 'layer': 0, 'valueerror': 0,
           'skip': 0}

    arith_key = []

    def flag(rule, node, why):
        if rule == 'body' and arith_key:
            return      # every later fact is about a key that is not decided
        bad.setdefault(rule, (node, why))

    rules_iter = 'self.rules'
    rule0 = loopvar_name(rules_iter, 0)
    # the aliases under which os.path and glob are imported
    pt = gl = None
    for k, v in f.module.imports.items():
        if v == ('module', 'os.path'):
            pt = k
        if v == ('module', 'glob'):
            gl = k
    if pt is None or gl is None:
        rep.inconclusive('C16.body', site, 'imports',
                         'os.path / glob are not imported as modules here')
        return
    for ex in exits:
        tr = ex.state.trace
        conds = [(e.sym.text, e.extra, e) for e in tr if e.kind == 'cond']
        cd = {t: v for t, v, _ in conds}
        rootv = None
        for t, v in cd.items():
            if t == 'root is None':
                rootv = 'self.root' if v else 'root'
        if rootv is None:
            continue
        dirp = f'{pt}.join({rootv}, {rule0}.directory_path)'
        # --- the rule directory
        ex_c = [t for t in cd if t.startswith(f'{pt}.exists(')]
        if ex_c and ex_c[0] != f'{pt}.exists({dirp})':
            flag('body', [e for t, v, e in conds if t == ex_c[0]][0].node,
                 f'the existence test is {ex_c[0]}, not on join(root, '
                 'rule.directory_path): a rule path that exists but is not a '
                 'directory is skipped silently instead of being rejected')
        if cd.get(f'{pt}.exists({dirp})') is False:
            cnt['skip'] += 1
            if any(e.kind == 'for' and 'iglob' in e.sym.text for e in tr) \
                    or ex.kind == 'raise':
                flag('body', f.node, 'a missing rule directory is not '
                     'silently skipped')
            continue
        if cd.get(f'{pt}.isdir({dirp})') is False:
            cnt['valueerror'] += 1
            if ex.kind != 'raise' or (ex.payload or '') != 'ValueError':
                flag('body', ex.node or f.node, 'a rule path that exists but '
                     'is not a directory is not rejected with ValueError')
            continue
        if ex.kind == 'raise':
            flag('body', ex.node or f.node, f'unexpected raise {ex.payload}')
            continue
        globs = [e for e in tr if e.kind == 'for' and 'iglob' in e.sym.text]
        if len(globs) != 1:
            continue
        g = globs[0]
        want_g = f"{gl}.iglob({pt}.join({dirp}, '**'), recursive=True)"
        if g.sym.text != want_g:
            flag('body', g.node.iter, f'files are enumerated with '
                 f'{g.sym.text}; expected {want_g} (every file at any depth '
                 'under the rule directory)')
            continue
        path = loopvar_name(want_g, 0)
        # --- extension filter
        has_ext = cd.get(f'len({rule0}.file_exts)')
        ext_in = cd.get(f'{pt}.splitext({path})[1] in {rule0}.file_exts')
        other_filter = [t for t in cd if 'file_exts' in t and t not in (
            f'len({rule0}.file_exts)', f'{rule0}.file_exts',
            f'{pt}.splitext({path})[1] in {rule0}.file_exts')]
        if ext_in is not None:
            cnt['filter'] = cnt.get('filter', 0) + 1
        if other_filter:
            flag('body', [e for t, v, e in conds if t == other_filter[0]][
                0].node, f'the extension filter tests "{other_filter[0]}": '
                'the file extension is not compared, as it is, with the '
                "rule's extensions")
            continue
        stores = [e for e in tr if e.kind == 'store' and e.target is not None
                  and e.target.text.startswith(f'{mp}[')]
        insts = [e for e in tr if e.kind == 'call' and isinstance(
            e.sym.node, ast.Call) and norm(e.sym.node.func)
            == f'{rule0}.instantiate']
        layers = [e for e in tr if e.kind == 'call' and isinstance(
            e.sym.node, ast.Call) and norm(e.sym.node.func).endswith(
                '.handles.maps.insert')]
        rejected = (has_ext is True or cd.get(f'{rule0}.file_exts') is True) \
            and ext_in is False
        if rejected:
            if stores or insts:
                flag('body', (stores or insts)[0].node, 'a file whose '
                     'extension the rule does not accept is stored')
            continue
        isfile = cd.get(f'{pt}.isfile({path})')
        isdir = cd.get(f'{pt}.isdir({path})')
        def _opt(name):
            for t_ in (name, f'self.{name}',
                       f'self.{name} if {name} is None else {name}',
                       f'{name} if {name} is not None else self.{name}',
                       f'{name} if not {name} is None else self.{name}'):
                if cd.get(t_) is not None:
                    return cd.get(t_)
            return None
        trim = _opt('trim_extensions')
        rel = (f'{pt}.normpath({pt}.relpath({path}, {rootv})).replace('
               f'{pt}.sep, ResourceMap.split_char)')
        key = f'{pt}.splitext({rel})[0]' if (trim is True and isfile is True) \
            else rel
        # dropping the file's own extension as a suffix is the same trim
        key_alts = {key}
        if trim is True and isfile is True:
            key_alts.add(f'{rel}.removesuffix({pt}.splitext({path})[1])')
        if isdir is True and isfile is True:
            continue        # infeasible valuation
        for s in stores:
            cnt['store'] += 1
            k = s.target.text[len(mp) + 1:-1]
            if k in key_alts:
                key = k         # the same key, written the other way
            if k != key and f'{pt}.relpath({path}, ' not in k \
                    and f'{pt}.relpath(' in k and '+' in k:
                # the key is assembled from a relative DIRECTORY path and a
                # piece of the entry's path (string arithmetic on paths):
                # whether that equals relpath(entry, root) for every tree is
                # an argument about os.path the rule does not carry
                rep.inconclusive('C16.body', site, k[:160],
                                 'the key is assembled by string arithmetic '
                                 'from the relative path of a directory '
                                 'instead of relpath(entry, root): not '
                                 'decided by this rule')
                arith_key.append(k)
                continue
            if k != key:
                flag('body', s.node, f'the entry is stored under {k}; the '
                     f'key for this path must be {key} (path relative to the '
                     'root; extension dropped exactly for files under '
                     'trim_extensions)')
            v = s.sym.text
            if v == f'{rule0}.instantiate({path})':
                if isfile is not True:
                    flag('body', s.node, 'a handle is stored for something '
                         'that is not a regular file')
            elif v == 'ResourceMap()':
                cnt['submap'] += 1
                taken = cd.get(f'{mp}.get({key}) is None')
                if isdir is not True or taken is not True:
                    flag('body', s.node, 'a new sub-map is stored although '
                         'the path is not a directory or its key is already '
                         'taken: an existing sub-map (and everything in it) '
                         'is replaced')
            else:
                flag('body', s.node, f'{v} is stored into the map')
        if len(stores) > 1:
            flag('body', stores[1].node, 'more than one store for one path')
        if isfile is True:
            cnt['inst'] += len(insts)
            if len(insts) != 1 or [norm(a) for a in insts[0].sym.node.args
                                   ] != [path]:
                flag('body', (insts[0].node if insts else f.node),
                     f'{len(insts)} factory calls for an accepted file '
                     '(expected exactly one, with the file path)')
            if len(stores) != 1:
                flag('body', f.node, 'an accepted regular file is not stored '
                     'exactly once')
        elif insts:
            flag('body', insts[0].node, 'the factory is called for something '
                 'that is not a regular file')
        # --- conflict lookups use the key that is stored
        lookups = [t for t in cd if t.startswith(f'{mp}.get(')]
        for t in lookups:
            if f'{mp}.get({key})' not in t:
                flag('body', [e for tt, v, e in conds if tt == t][0].node,
                     f'the conflict lookup "{t}" does not use the key the '
                     f'entry is stored under ({key}): with trim_extensions '
                     'the conflict is never found and the older handle is '
                     'overwritten instead of nested')
        # --- layer
        nest = _opt('nest_on_conflict')
        hnd = f'{mp}.get({key})'
        hit = [(t, v) for t, v in cd.items() if t.startswith(f'{hnd} is ')
               and 'handles.maps[0]' in t]
        present = cd.get(f'{hnd} is None')
        other_test = [t for t, v in cd.items() if 'handles.maps[0]' in t
                      and not t.startswith(f'{hnd} is ') and v is True]
        if layers and not hit and other_test and isfile is True \
                and nest is True:
            # the conflict is established some other way than through the
            # handle found under the key and its back-links (e.g. by looking
            # into the top layer of the receiving map): not decided here
            cnt['layer'] += 1
            unsure_layer = unsure_layer or (layers[0], other_test[0])
        elif layers:
            cnt['layer'] += 1
            if not (isfile is True and nest is True and present is False
                    and hit and hit[0][1] is True):
                flag('body', layers[0].node, 'a new layer is pushed without '
                     'nest_on_conflict and a conflicting handle in the top '
                     'layer')
            elif norm(layers[0].sym.node.func) != \
                    f'{hnd}.parent.handles.maps.insert' or [
                        norm(a) for a in layers[0].sym.node.args] != ['0',
                                                                      '{}']:
                flag('body', layers[0].node, 'the new layer is not inserted '
                     'on top of the handles of the map that contains the '
                     'conflicting handle')
        elif isfile is True and nest is True and present is False and hit \
                and hit[0][1] is True:
            flag('body', f.node, 'nest_on_conflict with a conflicting handle '
                 'in the top layer does not push a new layer: the older '
                 'handle is lost')
    if unsure_layer is not None and 'body' not in bad:
        rep.inconclusive('C16.body', site, unsure_layer[0].node,
                         'a new layer is pushed when '
                         f'`{unsure_layer[1][:100]}`: that this holds exactly '
                         'when the key is taken by a handle of the top layer '
                         'of the map that receives the new one rests on the '
                         'back-link invariants of the tree (C11), which this '
                         'rule does not carry')
    for k, mn in (('store', 4), ('inst', 4), ('submap', 1), ('layer', 1),
                  ('valueerror', 1), ('skip', 1), ('filter', 1)):
        rep.floor('C16.body', f'{k} events on the paths of __call__',
                  cnt[k], mn)
    if 'body' in bad:
        node, why = bad['body']
        if node is f.node:
            node = ast.Name('__call__: loop body', ast.Load())
            node.lineno = f.node.lineno
        rep.bad('C16.body', site, node, why,
                line=getattr(node, 'lineno', None))
    else:
        rep.ok('C16.body', site, '__call__: loop body, all valuations',
               f'{len(exits)} paths conform to the population plan',
               line=f.node.lineno)


def run(program, rep, tier):
    check_names(program, rep)
    check_optional(program, rep)
    check_forward(program, rep)
    check_body(program, rep)
    # the older handle stays retrievable beneath the new one, directories
    # replace handles of the same name in every layer (C11 rules)
    from rules import c11
    n0 = len(rep.obs)
    c11.check_setitem(program, rep)
    c11.check_chainmap(program, rep)
    # the conflict test of the populator reads the map through get(): a
    # handle that is present must be found whatever its truth value
    c11.check_lookup(program, rep)
    for o in rep.obs[n0:]:
        o.rule = o.rule.replace('C11.', 'C16.layers-')

