#!/venv/bin/python
"""One-off maintenance tool (kept for the record), second use: the `fix:` commit that keeps names like `__x` out of
the slots of the generated snapshot class changed the slot filter in ResourceMap.get_static_map (desper/model/tree.py),
which a number of filed patches (seeded / benign) have in their hunks.  Each of those patches is re-expressed against the repaired tree: apply it to the tree BEFORE the fix
(git show <old>:...), apply the same textual repair to the result, and diff against the repaired tree.  Seeds are then
re-confirmed (suite passes, demo fails with the patch and passes without), refactorings re-checked (suite passes).
usage: rebase_identity_fix.py <old-commit>           (run after the fix is committed in /repo)"""
import json, os, shutil, subprocess, sys, tempfile

OLD = sys.argv[1]
OLD_BLOCK = """        # Set valid identifiers as slots
        slots_resources = tuple(filter(
            lambda x: x.isidentifier(), chain(self.handles.keys(),
                                              self.maps.keys())))
"""
NEW_BLOCK = """        # Set valid identifiers as slots (but names like ``__x``, which
        # are mangled when they appear in a class body)
        slots_resources = tuple(filter(
            lambda x: x.isidentifier() and not (
                x.startswith('__') and not x.endswith('__')),
            chain(self.handles.keys(), self.maps.keys())))
"""


def repair(text):
    if OLD_BLOCK not in text:
        return None
    return text.replace(OLD_BLOCK, NEW_BLOCK)


def sh(cmd, cwd=None):
    r = subprocess.run(cmd, shell=True, cwd=cwd, capture_output=True, text=True)
    return r.returncode, r.stdout + r.stderr


def tree(commit):
    d = tempfile.mkdtemp(prefix='rb-')
    subprocess.run(f'git -C /repo archive {commit} | tar -x -C {d}', shell=True, check=True)
    return d


for kind in ('seeded', 'benign', 'regressions'):
    base = f'/verif/{kind}'
    for name in sorted(os.listdir(base)):
        p = f'{base}/{name}/patch.diff'
        if not os.path.isfile(p):
            continue
        new = tree('HEAD')
        rc, _ = sh(f'git apply --check {p}', new)
        if rc == 0:
            shutil.rmtree(new)
            continue
        old = tree(OLD)
        rc, out = sh(f'git apply {p}', old)
        if rc:
            print(f'{kind}/{name}: does not apply to {OLD} either: {out[:80]}')
            shutil.rmtree(old); shutil.rmtree(new)
            continue
        ev = f'{old}/desper/model/tree.py'
        fixed_text = repair(open(ev).read())
        if fixed_text is None:
            print(f'{kind}/{name}: rewrites the repaired lines itself - left as it is (will be skipped as not applicable)')
            shutil.rmtree(old); shutil.rmtree(new)
            continue
        open(ev, 'w').write(fixed_text)
        # diff of the whole package, repaired tree -> repaired tree + change
        sh('git init -q . && git add -A && git -c user.name=x -c user.email=x@x commit -qm base', new)
        sh(f'rsync -a --delete --exclude .git {old}/ {new}/')
        rc, diff = sh('git diff', new)
        sh('git checkout -q -- .', new)
        ok = bool(diff.strip())
        res = {}
        if ok:
            open('/tmp/rebased.diff', 'w').write(diff)
            rc, out = sh('git apply /tmp/rebased.diff', new)
            ok = rc == 0
            rc, out = sh('/venv/bin/python -m pytest -q -p no:cacheprovider 2>&1 | tail -1', new); open('/tmp/rb_last.log','w').write(sh('/venv/bin/python -m pytest -q -p no:cacheprovider 2>&1 | tail -30', new)[1]) if '111 passed' not in out else None
            res['suite'] = out.strip()
            ok = ok and '111 passed' in out
            demo = f'{base}/{name}/demo.py'
            if kind != 'benign' and os.path.isfile(demo):
                rc1, _ = sh(f'/venv/bin/python {demo}', new)
                sh('git checkout -q -- .', new)
                rc0, _ = sh(f'/venv/bin/python {demo}', new)
                res['demo_with'], res['demo_without'] = rc1, rc0
                ok = ok and rc1 != 0 and rc0 == 0
        print(f'{kind}/{name}:', 'REBASED' if ok else 'FAILED', res)
        if ok:
            shutil.copy(p, f'{base}/{name}/patch.orig.diff')
            shutil.copy('/tmp/rebased.diff', p)
            mp = f'{base}/{name}/meta.json'
            try:
                m = json.load(open(mp))
            except Exception:
                m = {}
            m['rebased'] = (f'patch re-expressed against the tree repaired by the slot-name fix (original, '
                            f'against {OLD}, kept as patch.orig.diff); re-confirmed: {res}')
            json.dump(m, open(mp, 'w'), indent=1)
        shutil.rmtree(old); shutil.rmtree(new)
