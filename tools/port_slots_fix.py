import json, os, re, shutil, subprocess, sys, tempfile
OLD='5fca4b8'
HELPER = '''def _slot_name(name: str) -> bool:
    """Whether a resource name can be a slot of a generated static map."""
    return name.isidentifier() and not (
        name.startswith('__') and not name.endswith('__'))


'''
def sh(cmd, cwd=None):
    r = subprocess.run(cmd, shell=True, cwd=cwd, capture_output=True, text=True); return r.returncode, r.stdout+r.stderr
def tree(c):
    d=tempfile.mkdtemp(prefix='ps-'); subprocess.run(f'git -C /repo archive {c} | tar -x -C {d}', shell=True, check=True); return d
for rel in sys.argv[1:]:
    kind, name = rel.split('/')
    base=f'/verif/{kind}'; p=f'{base}/{name}/patch.diff'
    old=tree(OLD); new=tree('HEAD')
    rc,out=sh(f'git apply {p}', old)
    if rc: print(rel,'noapply'); continue
    tp=f'{old}/desper/model/tree.py'; t=open(tp).read()
    i=t.index('    def get_static_map'); j=t.index('\n@runtime_checkable', i) if '\n@runtime_checkable' in t[i:] else len(t)
    body=t[i:j]
    body=body.replace('lambda x: x.isidentifier()','_slot_name').replace('str.isidentifier','_slot_name')
    body=re.sub(r'(\w+)\.isidentifier\(\)', r'_slot_name(\1)', body)
    body=body.replace('# Set valid identifiers as slots\n','# Set valid identifiers as slots (but names like ``__x``, which\n        # are mangled when they appear in a class body)\n')
    t=t[:i]+body+t[j:]
    t=t.replace('class StaticResourceMap:', HELPER+'class StaticResourceMap:',1)
    open(tp,'w').write(t)
    sh('git init -q . && git add -A && git -c user.name=x -c user.email=x@x commit -qm base', new)
    sh(f'rsync -a --delete --exclude .git {old}/ {new}/')
    rc,diff=sh('git diff', new); sh('git checkout -q -- .', new)
    open('/tmp/ported.diff','w').write(diff)
    rc,out=sh('git apply /tmp/ported.diff', new); ok = rc==0
    rc,out=sh('/venv/bin/python -m pytest -q -p no:cacheprovider 2>&1 | tail -1', new); res={'suite':out.strip()}; ok = ok and '111 passed' in out
    demo=f'{base}/{name}/demo.py'
    if kind!='benign' and os.path.isfile(demo):
        rc1,_=sh(f'/venv/bin/python {demo}', new); sh('git checkout -q -- .', new); rc0,_=sh(f'/venv/bin/python {demo}', new)
        res['demo_with'],res['demo_without']=rc1,rc0; ok = ok and rc1!=0 and rc0==0
    elif kind=='benign':
        tw=f'/verif/seeded/{name}/demo.py'
        if os.path.isfile(tw):
            rc1,_=sh(f'/venv/bin/python {tw}', new); res['twin_demo_with']=rc1; ok = ok and rc1==0
    print(rel, 'PORTED' if ok else 'FAILED', res)
    if ok:
        if not os.path.exists(f'{base}/{name}/patch.orig.diff'): shutil.copy(p, f'{base}/{name}/patch.orig.diff')
        shutil.copy('/tmp/ported.diff', p)
        mp=f'{base}/{name}/meta.json'
        try: m=json.load(open(mp))
        except Exception: m={}
        m['rebased']=f'patch ported to the tree repaired by the slot-name fix (its slot predicate now goes through a helper that also rejects names like __x; original against {OLD} kept as patch.orig.diff); re-confirmed: {res}'
        json.dump(m,open(mp,'w'),indent=1)
    shutil.rmtree(old); shutil.rmtree(new)
