#!/venv/bin/python
"""Run every property's rules on every filed benign refactoring (benign/<id>-<k>/patch.diff) and on the hand-written
variants of selftest/benign.py; print the ones on which some rule is not silent.  usage: run_benign.py [NAME ...]"""
import json, os, sys
sys.path.insert(0, os.path.dirname(os.path.dirname(os.path.abspath(__file__))))
sys.dont_write_bytecode = True
from concurrent.futures import ProcessPoolExecutor
from selftest import runner, benign
PROPS = ['C%02d' % i for i in range(1, 21)]
# the properties whose behaviour flows through each file (as in tools/mutants.py); with --all every property is run
RELEVANT = {
 'desper/events.py': ['C02', 'C03', 'C04', 'C10', 'C13', 'C15', 'C19', 'C20'],
 'desper/loop.py': ['C04', 'C12', 'C13', 'C14'],
 'desper/logic/world.py': ['C01', 'C02', 'C04', 'C05', 'C06', 'C07', 'C10', 'C15', 'C19'],
 'desper/logic/coroutines.py': ['C08', 'C09'],
 'desper/logic/__init__.py': ['C10', 'C19'],
 'desper/logic/spatial.py': ['C20'],
 'desper/model/tree.py': ['C11', 'C12', 'C13', 'C15', 'C16', 'C17'],
 'desper/model/world.py': ['C12', 'C13', 'C15'],
 'desper/model/__init__.py': ['C16'],
 'desper/math.py': ['C18'],
 'desper/bisect.py': ['C07'],
}
ALL = '--all' in sys.argv
def props_for(kind, payload):
    if ALL or kind != 'B':
        return PROPS
    files = [l[6:].strip() for l in open(payload) if l.startswith('+++ b/')]
    out = set()
    for f in files:
        out |= set(RELEVANT.get(f, PROPS))
    return sorted(out) or PROPS
def work(job):
    name, kind, payload = job
    row = {}
    for p in props_for(kind, payload):
        n, k, outcome, info = runner._run_variant((p, '/repo', kind, name, payload))
        if outcome not in ('silent',): row[p] = (outcome, info[:230])
    return name, row
if __name__ == '__main__':
    only = [a for a in sys.argv[1:] if not a.startswith('--')]
    jobs = []
    for d in sorted(os.listdir('/verif/benign')):
        if only and d not in only and d.split('-')[0] not in only: continue
        jobs.append((d, 'B', f'/verif/benign/{d}/patch.diff'))
    seen = set()
    for prop, vs in benign.VARIANTS.items():
        for name, edits in vs:
            if name in seen or (only and name not in only): continue
            seen.add(name); jobs.append(('hand:' + name, 'G', edits))
    bad = 0
    with ProcessPoolExecutor(16) as ex:
        for name, row in ex.map(work, jobs):
            if row:
                bad += 1
                for p, (o, i) in row.items(): print(f'{name:22s} {p} {o}: {i}', flush=True)
    print(f'{len(jobs)} refactorings, {bad} with a non-silent rule')
