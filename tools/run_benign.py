#!/venv/bin/python
"""Run every property's rules on every filed benign refactoring (benign/<id>-<k>/patch.diff) and on the hand-written
variants of selftest/benign.py; print the ones on which some rule is not silent.  usage: run_benign.py [NAME ...]"""
import json, os, sys
sys.path.insert(0, os.path.dirname(os.path.dirname(os.path.abspath(__file__))))
sys.dont_write_bytecode = True
from concurrent.futures import ProcessPoolExecutor
from selftest import runner, benign
PROPS = ['C%02d' % i for i in range(1, 21)]
def work(job):
    name, kind, payload = job
    row = {}
    for p in PROPS:
        n, k, outcome, info = runner._run_variant((p, '/repo', kind, name, payload))
        if outcome not in ('silent',): row[p] = (outcome, info[:230])
    return name, row
if __name__ == '__main__':
    only = sys.argv[1:]
    jobs = []
    for d in sorted(os.listdir('/verif/benign')):
        if only and d not in only and d.split('-')[0] not in only: continue
        jobs.append((d, 'B', f'/verif/benign/{d}/patch.diff'))
    seen = set()
    for prop, vs in benign.VARIANTS.items():
        for name, edits in vs:
            if name in seen or (only and name not in only): continue
            seen.add(name); jobs.append(('hand:' + name, 'G', edits))
    bad = 0
    with ProcessPoolExecutor(16) as ex:
        for name, row in ex.map(work, jobs):
            if row:
                bad += 1
                for p, (o, i) in row.items(): print(f'{name:22s} {p} {o}: {i}', flush=True)
    print(f'{len(jobs)} refactorings, {bad} with a non-silent rule')
