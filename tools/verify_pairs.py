#!/venv/bin/python
"""Confirm sub-agent twin pairs (a breaking change and its closest behaviour-preserving twin) and file them:
the breaking one under seeded/<id>-<tag><k>/ (patch.diff, demo.py, meta.json), the twin under
benign/<id>-<tag><k>/ (patch.diff, meta.json).   usage: verify_pairs.py <src dir> <tag>
Confirmed means: the suite passes with either patch; the demonstration fails with the breaking patch and passes on
the clean checkout and with the twin."""
import json, os, shutil, subprocess, sys, tempfile
SRC = sys.argv[1]
TAG = sys.argv[2]


def sh(cmd, cwd=None):
    r = subprocess.run(cmd, shell=True, cwd=cwd, capture_output=True, text=True)
    return r.returncode, (r.stdout + r.stderr)


def fresh():
    tmp = tempfile.mkdtemp(prefix='pair-')
    subprocess.run(f'git -C /repo archive HEAD | tar -x -C {tmp}', shell=True, check=True)
    return tmp


def suite(tmp):
    rc, out = sh('/venv/bin/python -m pytest -q -p no:cacheprovider 2>&1 | tail -1', tmp)
    return '111 passed' in out, out.strip()


for pid in sorted(os.listdir(SRC)):
    d = os.path.join(SRC, pid)
    if not os.path.isdir(d) or not pid.startswith('C'):
        continue
    for k in sorted(os.listdir(d)):
        sd = os.path.join(d, k)
        if not all(os.path.isfile(os.path.join(sd, f)) for f in ('bad.diff', 'good.diff', 'demo.py')):
            continue
        bdest, gdest = f'/verif/seeded/{pid}-{TAG}{k}', f'/verif/benign/{pid}-{TAG}{k}'
        if os.path.isdir(bdest) or os.path.isdir(gdest):
            continue
        res = {}
        for which in ('clean', 'bad', 'good'):
            tmp = fresh()
            try:
                if which != 'clean':
                    rc, out = sh(f'git apply {sd}/{which}.diff 2>&1 || patch -p1 --batch -s -i {sd}/{which}.diff', tmp)
                    if rc:
                        res[which] = ('apply failed', out[:120])
                        continue
                ok, line = suite(tmp) if which != 'clean' else (True, '')
                rc, out = sh(f'/venv/bin/python {sd}/demo.py', tmp)
                res[which] = (ok, rc, line)
            finally:
                shutil.rmtree(tmp, ignore_errors=True)
        good = (res.get('clean', (0, 1))[1] == 0 and res.get('bad', (False, 0))[0] is True and res['bad'][1] != 0
                and res.get('good', (False, 1))[0] is True and res['good'][1] == 0)
        print(pid, k, {w: r[:2] for w, r in res.items()}, 'KEEP' if good else 'DROP', flush=True)
        if not good:
            continue
        try:
            meta = json.load(open(f'{sd}/meta.json'))
        except Exception:
            meta = {}
        os.makedirs(bdest)
        shutil.copy(f'{sd}/bad.diff', f'{bdest}/patch.diff')
        shutil.copy(f'{sd}/demo.py', bdest)
        json.dump({'property': pid, 'summary': meta.get('summary_bad') or meta.get('summary', ''), 'twin': f'benign/{pid}-{TAG}{k}',
                   'difference': meta.get('difference', ''), 'files': meta.get('files', []),
                   'confirmed': {'suite_with_patch': res['bad'][2], 'demo_exit_with_patch': res['bad'][1],
                                 'demo_exit_without_patch': res['clean'][1]}}, open(f'{bdest}/meta.json', 'w'), indent=1)
        os.makedirs(gdest)
        shutil.copy(f'{sd}/good.diff', f'{gdest}/patch.diff')
        json.dump({'property': pid, 'summary': meta.get('summary_good') or ('correct twin of: ' + meta.get('summary', '')), 'twin_of': f'seeded/{pid}-{TAG}{k}',
                   'difference': meta.get('difference', ''), 'files': meta.get('files', []),
                   'confirmed': {'suite_with_patch': res['good'][2], 'demo_exit_with_patch': res['good'][1]}},
                  open(f'{gdest}/meta.json', 'w'), indent=1)
