#!/venv/bin/python
"""Rewrite the generated detection table of DESIGN.md (between the DETECTION-TABLE markers) from
seeded/DETECTION_RULES.json (written by tools/run_seeds.py --matrix --rules) and the seeds' meta.json."""
import json, os, re
V = '/verif'
rules = json.load(open(f'{V}/seeded/DETECTION_RULES.json'))
rows = []
def first_sentence(s, n=150):
    s = ' '.join(s.split())
    s = s.replace('|', '/')
    return s if len(s) <= n else s[:n - 1].rsplit(' ', 1)[0] + ' ...'
for name in sorted(rules, key=lambda s: (s[0] != 'C', s)):
    why = rules[name]
    if name.startswith('R'):
        meta = json.load(open(f'{V}/regressions/{name}/meta.json'))
        own = meta['properties']
        what = first_sentence(meta.get('summary', meta.get('what', '')).replace('reverse of the /repo commit ', 'reverse of '), 130)
    else:
        meta = json.load(open(f'{V}/seeded/{name}/meta.json'))
        own = [name.split('-')[0]]
        what = first_sentence(meta.get('summary', ''))
    def fmt(p):
        r, _, site = why[p].partition(' at ')
        return f'{r} ({site.split(":")[-1]})'
    mine = '; '.join(fmt(p) for p in own if p in why) or '**not reported by its own check**'
    others = '; '.join(fmt(p) for p in sorted(why) if p not in own) or '-'
    rows.append(f'| {name} | {what} | {mine} | {others} |')
table = ['| change | what it does | reported by its own check (first rule, function) | also reported by |',
         '|---|---|---|---|'] + rows
text = open(f'{V}/DESIGN.md').read()
a, b = '<!-- DETECTION-TABLE-BEGIN -->', '<!-- DETECTION-TABLE-END -->'
assert a in text and b in text
text = text[:text.index(a) + len(a)] + '\n' + '\n'.join(table) + '\n' + text[text.index(b):]
open(f'{V}/DESIGN.md', 'w').write(text)
print(len(rows), 'rows')
