#!/usr/bin/env python3
"""Regenerate /verif/MANIFEST.json from the per-property table below."""
import json, os
V = os.path.dirname(os.path.dirname(os.path.abspath(__file__)))
BASE = "cd /repo && /venv/bin/python -m pytest -ra -q -p no:cacheprovider --timeout=900 --continue-on-collection-errors"
COMMON_NOTE = ("Trusted: the Python ast parser; the frozen operation table of dict/set/list/deque/ChainMap/heapq/weakref (DESIGN.md appendix D); "
               "the written (not mechanised) argument from the structural clauses to the behavioural statement (DESIGN.md section 3 and appendix C). "
               "The check decides the structural clauses named in level_claimed.text - necessary conditions of the property in this code base - and not the behaviour itself; "
               "shapes the rules do not understand are reported as ANALYSIS-ERROR (exit 2), never as a violation.")
P = {
 'C01': dict(tech='static analysis: abstract interpretation of table operations over symbolic (entity,type) pairs on every path (PathEval) + truth tables of reader expressions + who-may-access',
   text='Static. Decides the representation-invariant step case for every World method that writes _entities/_components (transpose pairing on all paths incl. summaries of callees, justified row/index creation and deletion, no stale row reference across a call that may drop the row, emptied rows dropped), the reader formulae (entity_exists / entities truth tables, get/_get/get_component/get_components/has_component return expressions), freshness of automatic ids, and the owners scope rule. All paths of each method with loops walked 0/1/2 times; no execution.',
   ref='DESIGN.md section 3 C01'),
 'C02': dict(tech='static analysis: PathEval typestate over atoms H/A/D against a protocol table, at every attach/detach site of World',
   text='Static. For every attach/detach site of the component table, on every path (loops 0/1/2, callees by verified summaries): add_handler/remove_handler exactly when the object is a handler, exactly one on_add/on_remove notification with (entity, world) when it maps the event, direct call only under a dispatch flag read after the last call-out, relay otherwise; replacement preceded by detach or absence proof and guarded by exact-type presence; relay target forwards its args; World re-registers itself after wiping handlers; clear() visits every row; relay-then-wipe paths reported (one open known finding).',
   ref='DESIGN.md section 3 C02'),
 'C07': dict(tech='static analysis: PathEval protocol table for processors + ordering/dominance facts in add_processor + structural verification of the upper-bound bisection + who-may-write _sorted_processors',
   text='Static. Decides: lifecycle protocol of the processor table (as C02), world set before on_add, Optional priority tested by identity and stored exactly when given, priority store and replacement before the sorted insertion keyed on priority, insort resolves to insort_right -> bisect_right whose loops are the strict upper-bound search without early exit, every writer of _sorted_processors is the insort / an identity filter paired with the _processors delete / the empty init, process() is one loop with one processor.process(dt) per element, processors returns the list in order.',
   ref='DESIGN.md section 3 C07'),
 'C03': dict(tech='static analysis: PathEval over listener loops (one delivery per live listener with (handler,*args,**kwargs)), coupled-table construction/removal check, container-kind and borrowed-mapping rules',
   text='Static. Decides for desper/events.py: every loop over listeners makes exactly one call per live listener of its method with (handler, *args, **kwargs); the loop does not iterate the live set; add_handler files the same element/pair in _events and _handlers for every mapped event, _remove_weak_handler removes exactly those and then the ref, remove_handler/is_handler use the same key; listener containers are sets filled with add; _events[name] is only indexed after the membership test; event_handler never mutates the inherited mapping and assigns a fresh merge with the inherited mapping leftmost.',
   ref='DESIGN.md section 3 C03'),
 'C04': dict(tech='static analysis: PathEval typestate of dispatch() and of the enabling setter with one exception edge per delivery (remove-front-before-deliver, fresh flag test, no wipe/swap-out, drain always reached)',
   text='Static. Decides: dispatch() delivers only on paths that found the flag true, queues exactly (name,args,kwargs) at the back when disabled, ignores unknown events; in the enabling setter, on every path incl. every exception edge out of a delivery, each delivery is made from the element just removed from the front of the queue, nothing else is removed or wiped, each delivery follows a flag test that is fresh w.r.t. the previous delivery (nested disable stops the release: termination and order), enabling never returns before the release loop; every direct callback World makes is under a fresh enabled test.',
   ref='DESIGN.md section 3 C04'),
 'C05': dict(tech='static analysis: PathEval with exception edges over the deletion applier, check-or-maintain rule on every row-delete site, ordering facts in process()',
   text='Static. Decides: deferred delete_entity only marks; process() applies deletions before the processor loop on every path; component queries ignore the pending set; every row delete of _entities is followed on all paths by the discard of that id from the pending set (or the applier guards its row accesses); the applier draws ids from the live set right before teardown (snapshots must be guarded), never iterates the pending set live, and at every exception edge of the teardown the id has already left the pending set; clear() wipes the marks only after deleting every row.',
   ref='DESIGN.md section 3 C05'),
 'C06': dict(tech='static analysis: PathEval over the six subclass walks with a work-list model, per-iteration typestate (exact-first, membership match, closure, visited-once, single detach)',
   text='Static, independent of any class hierarchy. Decides for each of the six type queries: it reaches a work-list walk seeded with the queried type; the first element tested is the queried type; the match test is a membership test of the popped type; every iteration taking the back edge pushed the subclasses of the popped element (or skipped a visited one); the yielding walk tests and records the popped type in a visited set before its per-visit effect; no loop re-entry after a detach.',
   ref='DESIGN.md section 3 C06'),
 'C10': dict(tech='static analysis: taint (strong-reference escape) from handler parameters into dispatcher state, weakref-callback resolution, nullness of weak-reference dereference on every path to a delivery',
   text='Static. Decides: no expression holding a strong reference to a handler (the handler, a bound method, a closure over it) is stored into dispatcher state; every weak reference is created with a callback resolving to a method that removes it from both tables; in every listener loop the dereferenced handler passes an `is None` test before the delivery call on every path, and the snapshot iterated holds weak references rather than dereferenced handlers.',
   ref='DESIGN.md section 3 C10'),
}
NA_REASON = 'check under construction in this round (static rules designed in DESIGN.md section 3); not claimed until it runs'
def main():
    checks, na = [], []
    for i in range(1, 21):
        pid = 'C%02d' % i
        if pid in P and os.path.exists(f'{V}/rules/{pid.lower()}.py'):
            p = P[pid]
            checks.append({
              'property_id': pid,
              'quick_cmd': f'/venv/bin/python check {pid} --tier quick',
              'thorough_cmd': f'/venv/bin/python check {pid} --tier thorough',
              'evidence_file': f'evidence/{pid}.json',
              'replay_cmd_template': '/venv/bin/python check explain {path}',
              'engine': 'dlint',
              'level_claimed': {'category': 'other', 'text': p['text'], 'design_ref': p['ref']},
              'level_note': p.get('note', COMMON_NOTE),
              'technique': p['tech'],
            })
        else:
            na.append({'property_id': pid, 'reason': P.get(pid, {}).get('na', NA_REASON)})
    m = {
     'version': 1,
     'setup_cmd': 'mkdir -p evidence/replay',
     'hooks': {'guard': 'DESPER_VERIF',
               'enable': 'none needed: every check reads the source of /repo/desper with ast; nothing in /repo is instrumented, no hook commits exist',
               'baseline_off_cmd': BASE, 'source_commits': [], 'add_only': True},
     'engines': [{'name': 'dlint', 'path': 'dlint/', 'serves_properties': [c['property_id'] for c in checks],
                  'kind_free_text': 'stdlib-ast static analysis: program model (classes, MRO, imports), PathEval path enumerator with symbolic environment / condition memo / bounded loops / exception edges / callee summaries, per-property abstract domains; rules in rules/cNN.py; never imports the analysed package'}],
     'checks': checks,
     'notes': 'Exit codes: 0 held; 1 with VIOLATION lines; 2 ANALYSIS-ERROR (analysis does not cover the code). Known findings: known_findings.json. Seeded changes used to test the checks: seeded/ and regressions/.',
     'not_applicable': na,
    }
    json.dump(m, open(f'{V}/MANIFEST.json', 'w'), indent=1)
if __name__ == '__main__':
    main()
