#!/usr/bin/env python3
"""Regenerate /verif/MANIFEST.json from the per-property table below."""
import json, os
V = os.path.dirname(os.path.dirname(os.path.abspath(__file__)))
BASE = "cd /repo && /venv/bin/python -m pytest -ra -q -p no:cacheprovider --timeout=900 --continue-on-collection-errors"
COMMON_NOTE = ("Trusted: the Python ast parser; the frozen operation table of dict/set/list/deque/ChainMap/heapq/weakref (DESIGN.md appendix D); "
               "the written (not mechanised) argument from the structural clauses to the behavioural statement (DESIGN.md section 3 and appendix C). "
               "The check decides the structural clauses named in level_claimed.text - necessary conditions of the property in this code base - and not the behaviour itself; "
               "shapes the rules do not understand are reported as ANALYSIS-ERROR (exit 2), never as a violation.")
P = {
 'C01': dict(tech='static analysis: abstract interpretation of table operations over symbolic (entity,type) pairs on every path (PathEval) + truth tables of reader expressions + who-may-access',
   text='Static. Decides the representation-invariant step case for every World method that writes _entities/_components (transpose pairing on all paths incl. summaries of callees, justified row/index creation and deletion, no stale row reference across a call that may drop the row, emptied rows dropped), the reader formulae (entity_exists / entities truth tables, get/_get/get_component/get_components/has_component return expressions), freshness of automatic ids, and the owners scope rule. All paths of each method with loops walked 0/1/2 times; no execution.',
   ref='DESIGN.md section 3 C01'),
 'C02': dict(tech='static analysis: PathEval typestate over atoms H/A/D against a protocol table, at every attach/detach site of World',
   text='Static. For every attach/detach site of the component table, on every path (loops 0/1/2, callees by verified summaries): add_handler/remove_handler exactly when the object is a handler, exactly one on_add/on_remove notification with (entity, world) when it maps the event, direct call only under a dispatch flag read after the last call-out, relay otherwise; replacement preceded by detach or absence proof and guarded by exact-type presence; relay target forwards its args; World re-registers itself after wiping handlers; clear() visits every row; relay-then-wipe paths reported (one open known finding).',
   ref='DESIGN.md section 3 C02'),
 'C07': dict(tech='static analysis: PathEval protocol table for processors + ordering/dominance facts in add_processor + structural verification of the upper-bound bisection + who-may-write _sorted_processors',
   text='Static. Decides: lifecycle protocol of the processor table (as C02), world set before on_add, Optional priority tested by identity and stored exactly when given, priority store and replacement before the sorted insertion keyed on priority, insort resolves to insort_right -> bisect_right whose loops are the strict upper-bound search without early exit, every writer of _sorted_processors is the insort / an identity filter paired with the _processors delete / the empty init, process() is one loop with one processor.process(dt) per element, processors returns the list in order.',
   ref='DESIGN.md section 3 C07'),
 'C03': dict(tech='static analysis: PathEval over listener loops (one delivery per live listener with (handler,*args,**kwargs)), coupled-table construction/removal check, container-kind and borrowed-mapping rules',
   text='Static. Decides for desper/events.py: every loop over listeners makes exactly one call per live listener of its method with (handler, *args, **kwargs); the loop does not iterate the live set; add_handler files the same element/pair in _events and _handlers for every mapped event, _remove_weak_handler removes exactly those and then the ref, remove_handler/is_handler use the same key; listener containers are sets filled with add; _events[name] is only indexed after the membership test; event_handler never mutates the inherited mapping and assigns a fresh merge with the inherited mapping leftmost.',
   ref='DESIGN.md section 3 C03'),
 'C04': dict(tech='static analysis: PathEval typestate of dispatch() and of the enabling setter with one exception edge per delivery (remove-front-before-deliver, fresh flag test, no wipe/swap-out, drain always reached)',
   text='Static. Decides: dispatch() delivers only on paths that found the flag true, queues exactly (name,args,kwargs) at the back when disabled, ignores unknown events; in the enabling setter, on every path incl. every exception edge out of a delivery, each delivery is made from the element just removed from the front of the queue, nothing else is removed or wiped, each delivery follows a flag test that is fresh w.r.t. the previous delivery (nested disable stops the release: termination and order), enabling never returns before the release loop; every direct callback World makes is under a fresh enabled test.',
   ref='DESIGN.md section 3 C04'),
 'C05': dict(tech='static analysis: PathEval with exception edges over the deletion applier, check-or-maintain rule on every row-delete site, ordering facts in process()',
   text='Static. Decides: deferred delete_entity only marks; process() applies deletions before the processor loop on every path; component queries ignore the pending set; every row delete of _entities is followed on all paths by the discard of that id from the pending set (or the applier guards its row accesses); the applier draws ids from the live set right before teardown (snapshots must be guarded), never iterates the pending set live, and at every exception edge of the teardown the id has already left the pending set; clear() wipes the marks only after deleting every row.',
   ref='DESIGN.md section 3 C05'),
 'C06': dict(tech='static analysis: PathEval over the six subclass walks with a work-list model, per-iteration typestate (exact-first, membership match, closure, visited-once, single detach)',
   text='Static, independent of any class hierarchy. Decides for each of the six type queries: it reaches a work-list walk seeded with the queried type; the first element tested is the queried type; the match test is a membership test of the popped type; every iteration taking the back edge pushed the subclasses of the popped element (or skipped a visited one); the yielding walk tests and records the popped type in a visited set before its per-visit effect; no loop re-entry after a detach.',
   ref='DESIGN.md section 3 C06'),
 'C10': dict(tech='static analysis: taint (strong-reference escape) from handler parameters into dispatcher state, weakref-callback resolution, nullness of weak-reference dereference on every path to a delivery',
   text='Static. Decides: no expression holding a strong reference to a handler (the handler, a bound method, a closure over it) is stored into dispatcher state; every weak reference is created with a callback resolving to a method that removes it from both tables; in every listener loop the dereferenced handler passes an `is None` test before the delivery call on every path, and the snapshot iterated holds weak references rather than dereferenced handlers.',
   ref='DESIGN.md section 3 C10'),
 'C08': dict(tech='static analysis: PathEval over process() (timer writes, wake comparison, pushes, per-iteration step counting), who-may-write _timer/_wait_queue, abstract evaluation of the sleep guard, C09 typestate for queue multiplicity',
   text='Static. Decides the timer-discipline premises of the deadline invariant and one-step scheduling: every write of _timer is += dt or = 0; on every path exactly one advance precedes the first wake comparison; resets only after an emptiness test with no push in between; every push stores yielded + _timer; the wake test is _timer >= head.wait_time on the heap head; the heap is mutated only through heapq; records order by wait_time only; the sleep guard equals "not None and > 0" on None/negative/zero/positive; per active-loop iteration at most one next() and exactly one rotate/popleft, right-end appends, one sentinel; a generator is queued exactly once (C09 invariant). The arithmetic from these premises to exact wake frames is the written argument of DESIGN.md appendix C.',
   ref='DESIGN.md section 3 C08'),
 'C09': dict(tech='static analysis: typestate abstract interpretation of start/kill/state from 5 abstract pre-states and of each branch of process(), with havoc at the generator call-out',
   text='Static. Decides the step case of the representation invariant (queued exactly once <=> known <=> has a promise; pending kill => known; in the heap <=> wait record) for start, kill, state from each of the five invariant states and for one iteration of the wake loop and of the active loop (next() may set the kill mark), the state/exception table (TERMINATED/ACTIVE/PAUSED, ValueError before any mutation, TypeError first), no KeyError-raising bookkeeping, promise value stored before the promise is dropped, re-entrancy safety (no popleft/rotate in start/kill/state, heapify after a heap rebuild, identity filters).',
   ref='DESIGN.md section 3 C09'),
 'C11': dict(tech='static analysis: PathEval over ResourceMap.__setitem__/get/__getitem__ (back-link pairing, layer-complete exclusivity, one lookup plan), ChainMap first-layer operation table, structural clear() rule',
   text='Static. Decides: every store into maps/handles is accompanied on its path by parent = containing map and key = the name (second loop iteration tells the current map from self); stores into maps pop the name from every handle layer in a completed loop, stores into handles pop it from maps; first-layer-only ChainMap operations on handles are flagged; clear() resets back-links in every layer and of every sub-map before dropping all of them; get and __getitem__ each follow the same lookup plan with a membership test for the last key part, and get has exactly one KeyError handler around the whole walk.',
   ref='DESIGN.md section 3 C11'),
 'C12': dict(tech='static analysis: who-may-call load() over the package, PathEval gate check of Handle.__call__ (flag dominance, ordering), who-may-write the cache state, access-path shape rules',
   text='Static. Decides: a zero-argument load() call exists only in Handle.__call__ (and super().load() in overrides); on every path of __call__ load runs only on the false edge of the flag test, the result is cached, the flag is set after the load, the cache is returned; the cache state is written only by __call__/clear; clear unsets the flag on every path; cached returns the flag; map, static-map attribute and item access reach the handle call; the static map stores the handles themselves with exactly their names in _handle_names; no subclass overrides the gate; Loop.switch clears exactly the handles its flags name.',
   ref='DESIGN.md section 3 C12'),
 'C13': dict(tech='static analysis: PathEval ordering facts in switch(), plumbing shape rules, interprocedural composition of switch() paths with Loop.switch paths under feasible flag valuations (typestate: instance with pending in-event stays cached until adopted)',
   text='Static. Decides: switch() loads the target once, dispatches out(from,to) in the left world before disabling it, disables the entered world before dispatching in(from,to) on it, raises last; SwitchWorld stores handle and flags under their names; SimpleLoop.loop catches it around process and forwards them in order; SimpleLoop.switch adopts through Loop.switch and enables afterwards; composing the paths of switch() with those of Loop.switch, no feasible flag valuation clears the target handle between the load that received on_switch_in and its adoption (the alias case target == current handle with clear_current is the open known finding); current_world is the processed instance; dispatcher state is per instance.',
   ref='DESIGN.md section 3 C13'),
 'C14': dict(tech='static analysis: PathEval with exception edges over one iteration of SimpleLoop.loop (def-use of reading/dt/last_timestamp, store-before-process), must-precede of the reset in start, exception-handler inventory, exception-edge check of quit_loop',
   text='Static. Decides: one clock reading per iteration; dt is 0 on the `last_timestamp is None` edge (identity test) and reading - last_timestamp otherwise; the reading is stored before process runs; current_world.process receives exactly that dt once; SimpleLoop.start resets last_timestamp before entering the loop on every path; only Quit/SwitchWorld are handled in start/loop; the Quit handler sets running false and leaves world and handle; running is set before the loop; quit_loop dispatches on_quit then raises Quit on every path and does not replace an exception escaping the dispatch.',
   ref='DESIGN.md section 3 C14'),
 'C15': dict(tech='static analysis: PathEval forwarding checks (load, populate), structural wiring rules for the transformers, regex ASTs via re._parser, path-wise return analysis of the map functions, write-back aliasing rule',
   text='Static. Decides: WorldHandle.load disables the new world before the transformers, calls each with (self, world), dispatches on_world_load(self, world) after them, never enables, returns the world; populate makes one add_processor(type(*args, **kwargs)) per processor dict and one create_entity(*components, entity_id=id) per entity dict with one type(*args, **kwargs) per component dict in order; every processor/component dict of the file goes through every configured transformer (copy third, the dict itself fourth; no deep copy of resolved objects) before populating; default processors first, then type/object/resource transformers; the three regexes are <marker>(.+)} applied with match, markers prefix-free; $res subscripts the root map, $handle calls get, everything else passes through; mapped args/kwargs are written back in place; automatic ids never merge with listed ids.',
   ref='DESIGN.md section 3 C15'),
 'C16': dict(tech='static analysis: scope resolution over the package, Optional-by-identity rule, positional agreement of add_rule with the dataclass, PathEval of the population loop body over its boolean atoms',
   text='Static, modulo the file-system library (see level_note). Decides: no unbound name (the ValueError branch is well formed); None-defaulted options fall back by identity test only; add_rule fills the dataclass fields by position and instantiate forwards (filename, *args, **kwargs); on every path of the loop body the rule directory is join(root, rule.directory_path), missing -> skip, not a directory -> ValueError, files enumerated with iglob(dir/**, recursive=True), filter compares splitext(path)[1] with the rule extensions, key = normalised path relative to root with the extension dropped exactly under trim_extensions and isfile, the same key used for conflict lookups and the store, one factory call and one store per accepted file, new sub-map only for an untaken directory key, new layer exactly under nest_on_conflict and a top-layer hit.',
   ref='DESIGN.md section 3 C16',
   note='The central clause (the map mirrors an arbitrary directory tree) depends on glob/os.path and the file system and is decided only modulo "iglob(dir/**, recursive=True) enumerates everything under dir" (dot-files are skipped by it). ' + COMMON_NOTE),
 'C17': dict(tech='static analysis: all-paths-raise check of __setattr__/__delattr__, structural mirror rules for get_static_map, unwrap-condition path check',
   text='Static. Decides: every path through StaticResourceMap.__setattr__/__delattr__ raises and changes nothing; the generated class derives from it, overrides no accessor, and fills itself through object.__setattr__ only; get_static_map stores every visible handle itself and every sub-map recursively under its own name, _handle_names is exactly the handle names, the __dict__ decision looks at the names of both kinds, and a fresh snapshot is built on every call; __getattribute__ calls the stored object iff its name is in _handle_names, get returns it uncalled, __getitem__ is attribute access.',
   ref='DESIGN.md section 3 C17'),
 'C18': dict(tech='static analysis: algebraic value numbering - syntax-directed translation of the loop-free method bodies of desper/math.py to canonical polynomial / rational forms over Q (with rewrite rules for sqrt and sin/cos atoms) compared with checker-generated textbook definitions; ordering enumeration for clamp; constant folding of swizzle index maps',
   text='Static, exact over the rationals. One obligation per method and output component or identity (about 320): entrywise + - * / neg, scale, lerp, dot, cross, abs/mag/distance radicands, normalize (unit length, direction, zero case), from_magnitude/from_heading/from_polar/rotate length clauses, limit guard (squared length vs squared bound) and branches, clamp on all 18 orderings, swizzle letters/classes (thorough: all 336 strings per class), Mat3/Mat4 + - neg, transpose, row-by-column product, associativity, (A@B)@v = B@(A@v), default matrix two-sided identity, ~M two-sided inverse with determinant guard, from_translation/from_scale/translate/orthogonal_projection as images of generic points / box corners. Float rounding clauses are not decided.',
   ref='DESIGN.md section 3 C18',
   note='Trusted: the ast parser, the ~150-line polynomial/rational normal form in dlint/poly.py, the translator of rules/c18.py (tuple slicing, zip, truncating map, sum as in Python), sqrt/sin/cos as the real functions. Float clauses ("up to a rounding tolerance") are not decided: no sound static bound on rounding error is in reach.'),
 'C19': dict(tech='static analysis: single-call forwarder rules with positional agreement, descriptor bodies modulo assertions, abstract evaluation of the prototype initialiser lookup over its 4 scenario combinations',
   text='Static. Decides: each shorthand is exactly one unconditional call of the like-named World method on controller.world with controller.entity first and the other parameters in order, returning the result where there is one, and Controller binds them; Controller handles on_add and records entity and world; every descriptor method is, apart from assertions, exactly the corresponding query/add/remove call with the stored type; Prototype.__iter__ yields one product per listed type in order, built by init_methods[T], else the prefixed method, else _default_init (evaluated for the 4 combinations), each applied to T; OnUpdateProcessor.process is one unconditional dispatch of on_update with dt.',
   ref='DESIGN.md section 3 C19'),
 'C20': dict(tech='static analysis: PathEval value-flow from the stored expression to the dispatch argument in the six setters, event/property correspondence, constructor/setter agreement on the reducing function',
   text='Static. Decides for each of the six setters, on every path: one store into the backing field the getter returns, then one dispatch of on_<property>_change whose single argument is the stored expression (or a read of the field); no other event; the constructor applies the same reducing function as the setter (2-D rotation % 360); non-constant defaults are not stored bare unless immutable; the event_handler decorator cannot leak a subclass\'s events into its base (cross-talk).',
   ref='DESIGN.md section 3 C20'),
}
# clauses added after the second and third round of seeded changes (DESIGN.md 9.5c / 9.5d)
EXTRA = {
 'C01': ' Also: no store through a row / owner-set reference taken before a call that may free it; clear() visits every row; the subclass walk of get() visits each type once (C06 rule).',
 'C02': ' Also: registration precedes notification on attach; the protocol table holds for every (handler?, maps-event?) valuation consistent with the path; the C04 release rules for the postponed callbacks.',
 'C03': ' Also: knowledge about the keys of _events is void after a delivery (callbacks may remove handlers); no construct files one mutable container under several event names.',
 'C04': ' Also: deliveries invalidate what dispatch() knows about its flag; SimpleLoop.switch makes the enabling assignment on the entered world on every path (C13 rule).',
 'C05': ' Also: only process() (and helpers that run only as part of it) applies the pending deletions; a pending mark is discarded only once the row is gone; peeked ids count as drawn; the tables agree at every call-out of the teardown helpers (C01 pair analysis).',
 'C06': ' Also: no memoised subclass closure; a query keeps state only if every table mutator invalidates it; issubclass()/isinstance() decisions are a disagreement with the sibling walks; the type filtered out of the execution list is the one deleted from the type table; add_component files the entity in the owner set the index holds (C01 rule).',
 'C07': ' Also: the world is assigned after the replaced processor was detached; the filter variable of the execution-list rebuild equals the deleted key.',
 'C08': ' Also: deadline and wake comparison use the timer as last written in the frame (no stale copy); a table that some method rebinds is not aliased across a coroutine step.',
 'C09': ' Also: kill-queue emptiness read before a body ran is stale; no table rebinding + alias across a step; no weak references in the coroutine module; generators are never closed or thrown into; the sleep test of process() (C08 rule).',
 'C10': ' Also: clear() empties every container made in __init__; no weak-reference dereference straight into a call anywhere in the dispatcher; the listener tables are touched by dispatcher methods only; a queued event leaves the queue before it is delivered (C04 rule).',
 'C11': ' Also: clear() resets only children whose back-links still name this map; the value is stored on every path of __setitem__; after the value\'s back-links are set no may-alias child has its back-links reset without an identity guard.',
 'C12': ' Also: the flag is lowered before the value is dropped; no read of _cache outside Handle; no memoised function resolves resources.',
 'C13': ' Also: no early return in Loop.switch; the world enabled by SimpleLoop.switch is resolved after Loop.switch; in-repo Handle.clear overrides only drop the cache; the C04 release rules.',
 'C14': ' Also: only start()/loop() store last_timestamp; the receiver of on_quit is the given world unless it is None (identity test), never chosen by truth value; world and clock are read inside the loop.',
 'C15': ' Also: object_from_string looks every attribute up on the previous result (0/1/2-level paths); the climb to the root map does not test the truth value of a map when a class of the resource tree defines __len__/__bool__; marker dispatch tables and helper forms are followed; exact-type replacement of listed processors (C07 rule); C04 release rules.',
 'C16': ' Also: the layer and lookup rules of C11 for the conflict test (every layer purged, a present handle is found whatever its truth value).',
 'C17': ' Also decided with exception edges; every name (dunder-prefixed too) is unwrapped through the handle-name set; every sub-map is mirrored, empty ones included.',
 'C18': ' Also: the singularity test is det == 0 exactly; no memoised operation; exact-type dispatch (type(x) is V) only while V.__new__ cannot build subclass instances.',
 'C19': ' Also: init_methods is never mutated; only on_add stores a controller\'s entity/world; add_processor hands the world over after the replacement (C07 rule).',
 'C20': ' Also: a computing getter is compared with what the setter announces; registration of listeners is idempotent (C03 rule); no shared listener containers; dispatcher state per instance.',
}
NA_REASON = 'check under construction in this round (static rules designed in DESIGN.md section 3); not claimed until it runs'
def main():
    checks, na = [], []
    for i in range(1, 21):
        pid = 'C%02d' % i
        if pid in P and os.path.exists(f'{V}/rules/{pid.lower()}.py'):
            p = P[pid]
            checks.append({
              'property_id': pid,
              'quick_cmd': f'/venv/bin/python check {pid} --tier quick',
              'thorough_cmd': f'/venv/bin/python check {pid} --tier thorough',
              'evidence_file': f'evidence/{pid}.json',
              'replay_cmd_template': '/venv/bin/python check explain {path}',
              'engine': 'dlint',
              'level_claimed': {'category': 'other', 'text': p['text'] + EXTRA.get(pid, ''), 'design_ref': p['ref']},
              'level_note': p.get('note', COMMON_NOTE),
              'technique': p['tech'],
            })
        else:
            na.append({'property_id': pid, 'reason': P.get(pid, {}).get('na', NA_REASON)})
    m = {
     'version': 1,
     'setup_cmd': 'mkdir -p evidence/replay',
     'hooks': {'guard': 'DESPER_VERIF',
               'enable': 'none needed: every check reads the source of /repo/desper with ast; nothing in /repo is instrumented, no hook commits exist',
               'baseline_off_cmd': BASE, 'source_commits': [], 'add_only': True},
     'engines': [{'name': 'dlint', 'path': 'dlint/', 'serves_properties': [c['property_id'] for c in checks],
                  'kind_free_text': 'stdlib-ast static analysis: program model (classes, MRO, imports), PathEval path enumerator with symbolic environment / condition memo / bounded loops / exception edges / callee summaries, per-property abstract domains; a normalisation pass undoing behaviour-preserving presentation choices (private attributes renamed consistently, property(), private record types, private constants, simple decorators, assignment expressions); a statement budget per walk (ANALYSIS-ERROR beyond it); rules in rules/cNN.py; never imports the analysed package'}],
     'checks': checks,
     'notes': 'Exit codes: 0 held; 1 with VIOLATION lines; 2 ANALYSIS-ERROR (analysis does not cover the code). Known findings: known_findings.json. Seeded changes used to test the checks: seeded/ and regressions/.',
     'not_applicable': na,
    }
    json.dump(m, open(f'{V}/MANIFEST.json', 'w'), indent=1)
if __name__ == '__main__':
    main()
