#!/venv/bin/python
"""Run the rules of every property against every seeded change / regression, each applied to its own scratch
copy of /repo/desper (never to /repo).   usage: run_seeds.py [--matrix] [PROP|SEED ...]
Prints: seed, exit-like outcome of its own property(ies), other properties that fire.
--matrix additionally writes seeded/DETECTION.json (which checks report a violation for which change)."""
import json, os, sys
sys.path.insert(0, os.path.dirname(os.path.dirname(os.path.abspath(__file__))))
sys.dont_write_bytecode = True
from concurrent.futures import ProcessPoolExecutor
from selftest import runner

V = '/verif'
def items():
    out = [(sd, [sd.split('-')[0]], f'{V}/seeded/{sd}/patch.diff') for sd in sorted(os.listdir(f'{V}/seeded')) if os.path.isdir(f'{V}/seeded/{sd}')]
    for rd in sorted(os.listdir(f'{V}/regressions')):
        out.append((rd, json.load(open(f'{V}/regressions/{rd}/meta.json'))['properties'], f'{V}/regressions/{rd}/patch.diff'))
    return out
PROPS = sorted(f[:-3].upper() for f in os.listdir(f'{V}/rules') if f.startswith('c') and f[1:3].isdigit())

def work(job):
    name, pids, patch, props = job
    row = {}
    why = {}
    for p in props:
        n, k, outcome, info = runner._run_variant((p, '/repo', 'B', name, patch))
        row[p] = {'violation': 1, 'inconclusive': 2, 'silent': 0, 'skipped': 'skip'}[outcome]
        if outcome == 'violation':
            why[p] = info.split(': ')[0]         # 'rule at site'
    return name, pids, row, why

if __name__ == '__main__':
    args = [a for a in sys.argv[1:] if not a.startswith('--')]
    matrix = '--matrix' in sys.argv
    own_only = '--own' in sys.argv
    jobs = []
    for name, pids, patch in items():
        if args and not (set(pids) & set(args)) and name not in args: continue
        jobs.append((name, pids, patch, pids if own_only else PROPS))
    res = {}
    whys = {}
    with ProcessPoolExecutor(16) as ex:
        for name, pids, row, why in ex.map(work, jobs):
            whys[name] = why
            own = ','.join(str(row.get(p, '-')) for p in pids)
            others = [f'{p}:{c}' for p, c in row.items() if p not in pids and c not in (0,)]
            rules = ' '.join(f'[{p}:{w}]' for p, w in sorted(why.items())) if '--rules' in sys.argv else ''
            print(f'{name:8s} own={own} others={",".join(others) or "-"} {rules}', flush=True)
            res[name] = row
    if matrix:
        det = {n: sorted(p for p, c in row.items() if c == 1) for n, row in res.items()}
        if args:        # a partial matrix is merged into the recorded one
            old = json.load(open(f'{V}/seeded/DETECTION.json'))
            old.update(det)
            det = old
            oldw = json.load(open(f'{V}/seeded/DETECTION_RULES.json'))
            oldw.update(whys)
            whys = oldw
        json.dump(det, open(f'{V}/seeded/DETECTION.json', 'w'), indent=1, sort_keys=True)
        json.dump(whys, open(f'{V}/seeded/DETECTION_RULES.json', 'w'), indent=1, sort_keys=True)
