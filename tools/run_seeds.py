#!/usr/bin/env python3
"""Run checks against every seeded change (applied to a scratch worktree, never to /repo).
usage: run_seeds.py [PROP ...]   -> table: seed, own-property exit code, which other checks fire"""
import json, os, subprocess, sys
WT = '/tmp/wt/verify'
def sh(cmd, cwd=None):
    r = subprocess.run(cmd, shell=True, cwd=cwd, capture_output=True, text=True)
    return r.returncode, (r.stdout + r.stderr)
if not os.path.isdir(WT):
    sh(f'git -C /repo worktree add -q --detach {WT} HEAD')
sh('git checkout -q --detach $(git -C /repo rev-parse HEAD) && git checkout -q -- . && git clean -fdq', WT)
only = sys.argv[1:]
built = sorted(f[:-3].upper() for f in os.listdir('/verif/rules') if f.startswith('c') and f[1:3].isdigit())
res = {}
items = [(sd, [sd.split('-')[0]], f'/verif/seeded/{sd}/patch.diff') for sd in sorted(os.listdir('/verif/seeded'))]
for rd in sorted(os.listdir('/verif/regressions')):
    items.append((rd, json.load(open(f'/verif/regressions/{rd}/meta.json'))['properties'], f'/verif/regressions/{rd}/patch.diff'))
for sd, pids, patch in items:
    pid = pids[0]
    if only and not (set(pids) & set(only)) and sd not in only: continue
    sh('git checkout -q -- . && git clean -fdq', WT)
    rc, out = sh(f'git apply {patch}', WT)
    if rc: print(sd, 'apply failed', out); continue
    row = {}
    for p in built:
        if p != pid and '--all' not in os.environ.get('SEEDS_MODE', '--all'): continue
        rc, out = sh(f'VERIF_EVIDENCE_DIR=/tmp/seed_evidence /verif/check {p} --repo {WT}', '/verif')
        row[p] = rc
    own = ','.join(str(row.get(p, '-')) for p in pids)
    others = [f'{p}:{c}' for p, c in row.items() if p not in pids and c != 0]
    print(f'{sd:8s} own={own} others={",".join(others) or "-"}')
    res[sd] = row
sh('git checkout -q -- . && git clean -fdq', WT)
json.dump(res, open('/tmp/seed_results.json', 'w'), indent=1)
