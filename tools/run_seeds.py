#!/usr/bin/env python3
"""Run checks against every seeded change (applied to a scratch worktree, never to /repo).
usage: run_seeds.py [PROP ...]   -> table: seed, own-property exit code, which other checks fire"""
import json, os, subprocess, sys
WT = '/tmp/wt/verify'
def sh(cmd, cwd=None):
    r = subprocess.run(cmd, shell=True, cwd=cwd, capture_output=True, text=True)
    return r.returncode, (r.stdout + r.stderr)
if not os.path.isdir(WT):
    sh(f'git -C /repo worktree add -q --detach {WT} HEAD')
sh('git checkout -q --detach $(git -C /repo rev-parse HEAD) && git checkout -q -- . && git clean -fdq', WT)
only = sys.argv[1:]
built = sorted(f[:-3].upper() for f in os.listdir('/verif/rules') if f.startswith('c') and f[1:3].isdigit())
res = {}
for sd in sorted(os.listdir('/verif/seeded')):
    pid = sd.split('-')[0]
    if only and pid not in only and sd not in only: continue
    sh('git checkout -q -- . && git clean -fdq', WT)
    rc, out = sh(f'git apply /verif/seeded/{sd}/patch.diff', WT)
    if rc: print(sd, 'apply failed', out); continue
    row = {}
    for p in built:
        if p != pid and '--all' not in os.environ.get('SEEDS_MODE', '--all'): continue
        rc, out = sh(f'VERIF_EVIDENCE_DIR=/tmp/seed_evidence /verif/check {p} --repo {WT}', '/verif')
        row[p] = rc
    own = row.get(pid, '-')
    others = [f'{p}:{c}' for p, c in row.items() if p != pid and c != 0]
    print(f'{sd:8s} own={own} others={",".join(others) or "-"}')
    res[sd] = row
sh('git checkout -q -- . && git clean -fdq', WT)
json.dump(res, open('/tmp/seed_results.json', 'w'), indent=1)
