#!/usr/bin/env python3
"""Confirm sub-agent seeded changes in a scratch worktree and file them under
/verif/seeded/<id>-<k>/ (patch.diff, demo.py, meta.json)."""
import json, os, shutil, subprocess, sys
SRC = sys.argv[1] if len(sys.argv) > 1 else '/tmp/seedout'
WT = '/tmp/wt/verify'
def sh(cmd, cwd=None):
    r = subprocess.run(cmd, shell=True, cwd=cwd, capture_output=True, text=True)
    return r.returncode, (r.stdout + r.stderr)
if not os.path.isdir(WT):
    print(sh(f'git -C /repo worktree add -q --detach {WT} HEAD'))
TAG = sys.argv[2] if len(sys.argv) > 2 else ''
only = sys.argv[3:] 
for pid in sorted(os.listdir(SRC)):
    d = os.path.join(SRC, pid)
    if not os.path.isdir(d) or not pid.startswith('C'): continue
    if only and pid not in only: continue
    for k in sorted(os.listdir(d)):
        sd = os.path.join(d, k)
        if not os.path.isfile(os.path.join(sd, 'patch.diff')): continue
        dest = f'/verif/seeded/{pid}-{TAG}{k}'
        if os.path.isdir(dest): continue
        sh('git checkout -q -- . && git clean -fdq', WT)
        rc, out = sh(f'git apply {sd}/patch.diff', WT)
        if rc: print(pid, k, 'APPLY FAIL', out[:200]); continue
        rc, out = sh('/venv/bin/python -m pytest -q -p no:cacheprovider 2>&1 | tail -1', WT)
        tests_ok = '111 passed' in out
        rc_bad, out_bad = sh(f'/venv/bin/python {sd}/demo.py', WT)
        sh('git checkout -q -- . && git clean -fdq', WT)
        rc_good, out_good = sh(f'/venv/bin/python {sd}/demo.py', WT)
        ok = tests_ok and rc_bad != 0 and rc_good == 0
        print(pid, k, 'tests', tests_ok, 'demo_with', rc_bad, 'demo_without', rc_good, 'KEEP' if ok else 'DROP')
        if not ok: continue
        os.makedirs(dest)
        shutil.copy(f'{sd}/patch.diff', dest); shutil.copy(f'{sd}/demo.py', dest)
        try: meta = json.load(open(f'{sd}/meta.json'))
        except Exception: meta = {}
        meta['confirmed'] = {'suite_with_patch': out.strip(), 'demo_exit_with_patch': rc_bad,
                             'demo_exit_without_patch': rc_good,
                             'ran': ['git apply patch.diff (scratch worktree of /repo HEAD)', '/venv/bin/python -m pytest -q -p no:cacheprovider', '/venv/bin/python demo.py (patched)', 'git checkout -- .', '/venv/bin/python demo.py (clean)']}
        meta['property'] = pid
        json.dump(meta, open(f'{dest}/meta.json', 'w'), indent=1)
