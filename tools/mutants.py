#!/venv/bin/python
"""Mutation sweep used to look for necessary conditions the rules do not check yet (a development aid, not a
registered check): generate syntactic mutants of /repo/desper, keep those the pinned test suite does not kill,
run the rules of all 20 properties on each survivor (statically, on a scratch copy) and list the survivors no
rule reports. Those are triaged by reading: equivalent / outside every property / a real miss.

usage: mutants.py [--files a.py,b.py] [--out FILE] [--limit N]
Scratch copies live under $TMPDIR and are removed."""
import ast, copy, json, os, shutil, subprocess, sys, tempfile, time
sys.path.insert(0, os.path.dirname(os.path.dirname(os.path.abspath(__file__))))
sys.dont_write_bytecode = True
from concurrent.futures import ProcessPoolExecutor

REPO = '/repo'
FILES = ['desper/events.py', 'desper/loop.py', 'desper/logic/world.py', 'desper/logic/coroutines.py',
         'desper/logic/__init__.py', 'desper/logic/spatial.py', 'desper/model/tree.py', 'desper/model/world.py',
         'desper/model/__init__.py', 'desper/math.py', 'desper/bisect.py']
PROPS = ['C%02d' % i for i in range(1, 21)]
# the properties whose anchors lie in (or whose behaviour flows through) each file
RELEVANT = {
 'desper/events.py': ['C02', 'C03', 'C04', 'C10', 'C13', 'C15', 'C20'],
 'desper/loop.py': ['C04', 'C12', 'C13', 'C14'],
 'desper/logic/world.py': ['C01', 'C02', 'C04', 'C05', 'C06', 'C07', 'C15', 'C19'],
 'desper/logic/coroutines.py': ['C08', 'C09'],
 'desper/logic/__init__.py': ['C10', 'C19'],
 'desper/logic/spatial.py': ['C20'],
 'desper/model/tree.py': ['C11', 'C12', 'C16', 'C17'],
 'desper/model/world.py': ['C12', 'C15'],
 'desper/model/__init__.py': ['C16'],
 'desper/math.py': ['C18'],
 'desper/bisect.py': ['C07'],
}

CMP = {ast.Lt: ast.LtE, ast.LtE: ast.Lt, ast.Gt: ast.GtE, ast.GtE: ast.Gt, ast.Eq: ast.NotEq, ast.NotEq: ast.Eq,
       ast.Is: ast.IsNot, ast.IsNot: ast.Is, ast.In: ast.NotIn, ast.NotIn: ast.In}
BIN = {ast.Add: ast.Sub, ast.Sub: ast.Add, ast.Mult: ast.Div, ast.Div: ast.Mult, ast.Mod: ast.Mult,
       ast.FloorDiv: ast.Div}


def _skip_stmt(s):
    if isinstance(s, ast.Assert):
        return True
    if isinstance(s, ast.Expr) and isinstance(s.value, ast.Constant) and isinstance(s.value.value, str):
        return True
    if isinstance(s, (ast.Import, ast.ImportFrom)):
        return True
    return False


def sites(tree):
    """Yield (description, path) where path addresses a node; mutation applied on a deep copy."""
    out = []

    def rec(node, path, in_skip):
        if isinstance(node, ast.stmt) and _skip_stmt(node):
            return
        if isinstance(node, (ast.Raise,)):
            return          # messages
        if isinstance(node, ast.arguments):
            return
        if isinstance(node, (ast.FunctionDef, ast.AsyncFunctionDef)):
            for i, s in enumerate(node.body):
                rec(s, path + [('body', i)], in_skip)
            return
        if isinstance(node, ast.AnnAssign) and node.value is None:
            return
        ln = getattr(node, 'lineno', 0)
        if isinstance(node, ast.Compare) and len(node.ops) == 1 and type(node.ops[0]) in CMP:
            out.append((f'{ln}: cmp {type(node.ops[0]).__name__}->{CMP[type(node.ops[0])].__name__}', path, 'cmp'))
        if isinstance(node, ast.BoolOp):
            out.append((f'{ln}: boolop swap', path, 'bool'))
            for i in range(len(node.values)):
                out.append((f'{ln}: boolop drop operand {i}', path, ('booldrop', i)))
        if isinstance(node, ast.UnaryOp) and isinstance(node.op, ast.Not):
            out.append((f'{ln}: drop not', path, 'not'))
        if isinstance(node, (ast.If, ast.While)) :
            out.append((f'{ln}: negate test', path, 'neg'))
        if isinstance(node, ast.IfExp):
            out.append((f'{ln}: negate ifexp', path, 'neg'))
        if isinstance(node, ast.BinOp) and type(node.op) in BIN:
            out.append((f'{ln}: binop {type(node.op).__name__}->{BIN[type(node.op)].__name__}', path, 'bin'))
        if isinstance(node, ast.AugAssign) and type(node.op) in BIN:
            out.append((f'{ln}: augop', path, 'aug'))
        if isinstance(node, ast.Constant) and not isinstance(node.value, (str, bytes, type(None), type(...))):
            if isinstance(node.value, bool):
                out.append((f'{ln}: const {node.value}->{not node.value}', path, 'const'))
            elif isinstance(node.value, (int, float)):
                out.append((f'{ln}: const {node.value}->{node.value + 1}', path, 'const'))
        if isinstance(node, ast.Constant) and node.value is None and False:
            pass
        if isinstance(node, (ast.Break, ast.Continue)):
            out.append((f'{ln}: break<->continue', path, 'brk'))
        if isinstance(node, ast.stmt) and isinstance(node, (ast.Expr, ast.Assign, ast.AugAssign, ast.Delete,
                                                            ast.Return, ast.Continue, ast.Break)):
            if not (isinstance(node, ast.Return) and node.value is None):
                out.append((f'{ln}: delete stmt `{ast.unparse(node)[:50]}`', path, 'del'))
        if isinstance(node, ast.Call) and len(node.args) == 2 and not node.keywords and not any(
                isinstance(a, ast.Starred) for a in node.args):
            out.append((f'{ln}: swap args `{ast.unparse(node)[:50]}`', path, 'swap'))
        if isinstance(node, ast.Subscript) and isinstance(node.slice, ast.Constant) and isinstance(
                node.slice.value, int):
            pass    # covered by const
        for field, value in ast.iter_fields(node):
            if field in ('annotation', 'returns', 'decorator_list', 'type_comment'):
                continue
            if isinstance(value, list):
                for i, v in enumerate(value):
                    if isinstance(v, ast.AST):
                        rec(v, path + [(field, i)], in_skip)
            elif isinstance(value, ast.AST):
                rec(value, path + [(field, None)], in_skip)
    rec(tree, [], False)
    return out


def get(tree, path):
    node = tree
    for field, i in path:
        node = getattr(node, field)
        if i is not None:
            node = node[i]
    return node


def setnode(tree, path, new):
    parent = get(tree, path[:-1])
    field, i = path[-1]
    if i is None:
        setattr(parent, field, new)
    else:
        getattr(parent, field)[i] = new


def mutate(tree, path, kind):
    t = copy.deepcopy(tree)
    n = get(t, path)
    if kind == 'cmp':
        n.ops = [CMP[type(n.ops[0])]()]
    elif kind == 'bool':
        n.op = ast.Or() if isinstance(n.op, ast.And) else ast.And()
    elif isinstance(kind, tuple) and kind[0] == 'booldrop':
        vals = [v for j, v in enumerate(n.values) if j != kind[1]]
        setnode(t, path, vals[0] if len(vals) == 1 else ast.BoolOp(n.op, vals))
    elif kind == 'not':
        setnode(t, path, n.operand)
    elif kind == 'neg':
        n.test = ast.UnaryOp(ast.Not(), n.test)
    elif kind == 'bin':
        n.op = BIN[type(n.op)]()
    elif kind == 'aug':
        n.op = BIN[type(n.op)]()
    elif kind == 'const':
        n.value = (not n.value) if isinstance(n.value, bool) else n.value + 1
    elif kind == 'brk':
        setnode(t, path, ast.Continue() if isinstance(n, ast.Break) else ast.Break())
    elif kind == 'del':
        setnode(t, path, ast.Pass())
    elif kind == 'swap':
        n.args = [n.args[1], n.args[0]]
    ast.fix_missing_locations(t)
    return ast.unparse(t)


_W = {}


def _worker_init():
    d = tempfile.mkdtemp(prefix='mut-')
    shutil.copytree(REPO, d + '/r', ignore=shutil.ignore_patterns('.git', '__pycache__', 'docs', 'examples',
                                                               '*.egg-info'))
    _W['dir'] = d + '/r'
    import atexit
    atexit.register(shutil.rmtree, d, True)


def run_one(job):
    rel, desc, src = job
    root = _W['dir']
    path = os.path.join(root, rel)
    orig = open(path).read()
    try:
        open(path, 'w').write(src)
        try:
            r = subprocess.run(['/venv/bin/python', '-m', 'pytest', '-x', '-q', '-p', 'no:cacheprovider',
                                '--timeout=60'], cwd=root, capture_output=True, text=True, timeout=300)
            killed = r.returncode != 0
        except subprocess.TimeoutExpired:
            killed = True
        if killed:
            return rel, desc, 'killed', {}
        from dlint.model import Program, AnalysisError
        from dlint.report import Report, VIOLATED, INCONCLUSIVE, load_known
        import importlib
        fired = {}
        for prop in RELEVANT.get(rel, PROPS):
            rep = Report(prop, 'quick', root)
            mod = importlib.import_module('rules.' + prop.lower())
            try:
                mod.run(Program(root), rep, 'quick')
            except AnalysisError as ex:
                rep.error(str(ex))
            except Exception as ex:
                rep.error(f'internal {type(ex).__name__}: {ex}')
            known = {(k['rule'], k['site'], ' '.join(k['construct'].split())) for k in load_known().get('open', [])
                     if k['property'] == prop}
            viol = [o for o in rep.obs if o.verdict == VIOLATED and (o.rule, o.site, o.construct) not in known]
            if viol:
                fired[prop] = 'V:' + viol[0].rule
            elif rep.errors or any(o.verdict == INCONCLUSIVE for o in rep.obs):
                fired[prop] = 'E:' + (rep.errors or ['?'])[0][:80]
        return rel, desc, 'survived', fired
    finally:
        open(path, 'w').write(orig)
        shutil.rmtree(os.path.join(root, os.path.dirname(rel), '__pycache__'), ignore_errors=True)


if __name__ == '__main__':
    files = FILES
    only_lines = None
    out = '/tmp/mutants.json'
    limit = None
    a = sys.argv[1:]
    while a:
        x = a.pop(0)
        if x == '--files':
            files = a.pop(0).split(',')
        elif x == '--out':
            out = a.pop(0)
        elif x == '--limit':
            limit = int(a.pop(0))
        elif x == '--lines':        # file.py:30,56,60  (only these lines)
            spec = a.pop(0)
            fpart, lpart = spec.split(':')
            files = [f for f in FILES if f.endswith(fpart)]
            only_lines = {int(v) for v in lpart.split(',')}
    jobs = []
    for rel in files:
        src = open(os.path.join(REPO, rel)).read()
        tree = ast.parse(src)
        # sanity: the unparsed, unmutated module is a benign variant
        jobs.append((rel, 'IDENTITY (ast.unparse of the unchanged module)', ast.unparse(tree)))
        for desc, path, kind in sites(tree):
            if only_lines is not None and int(desc.split(':')[0]) \
                    not in only_lines:
                continue
            try:
                m = mutate(tree, path, kind)
            except Exception as ex:
                continue
            jobs.append((rel, desc, m))
    if limit:
        jobs = jobs[:limit]
    print(len(jobs), 'mutants', flush=True)
    t0 = time.time()
    res = []
    with ProcessPoolExecutor(16, initializer=_worker_init) as ex:
        for i, r in enumerate(ex.map(run_one, jobs, chunksize=4)):
            res.append(r)
            if i % 100 == 0:
                print(i, round(time.time() - t0), flush=True)
    json.dump(res, open(out, 'w'), indent=0)
    surv = [r for r in res if r[2] == 'survived']
    und = [r for r in surv if not any(v.startswith('V:') for v in r[3].values())]
    if only_lines is not None:
        for r in res:
            print(r[1][:70], '|', r[2], r[3])
    print(f'{len(res)} mutants, {len(surv)} survive the suite, {len(surv) - len(und)} reported by a rule, '
          f'{len(und)} unreported')
