#!/venv/bin/python
"""Confirm sub-agent behaviour-preserving refactorings (suite passes with them) and run every property's rules on
them; file them under /verif/benign/<id>-<k>/ with the outcome.  usage: verify_benign.py [SRC_DIR]"""
import json, os, shutil, subprocess, sys, tempfile
sys.path.insert(0, os.path.dirname(os.path.dirname(os.path.abspath(__file__))))
sys.dont_write_bytecode = True
from concurrent.futures import ProcessPoolExecutor
from selftest import runner
SRC = sys.argv[1] if len(sys.argv) > 1 else '/tmp/benign'
TAG = sys.argv[2] if len(sys.argv) > 2 else ''
PROPS = ['C%02d' % i for i in range(1, 21)]

def work(job):
    pid, k, sd = job
    patch = os.path.join(sd, 'patch.diff')
    tmp = tempfile.mkdtemp(prefix='benign-')
    try:
        subprocess.run(f'git -C /repo archive HEAD | tar -x -C {tmp}', shell=True, check=True)
        r = subprocess.run(['patch', '-p1', '--batch', '-s', '-i', patch], cwd=tmp, capture_output=True, text=True)
        if r.returncode: return pid, k, 'patch does not apply', {}
        t = subprocess.run('/venv/bin/python -m pytest -q -p no:cacheprovider 2>&1 | tail -1', shell=True, cwd=tmp, capture_output=True, text=True)
        if '111 passed' not in t.stdout: return pid, k, 'suite: ' + t.stdout.strip(), {}
    finally:
        shutil.rmtree(tmp, ignore_errors=True)
    row = {}
    for p in PROPS:
        n, kind, outcome, info = runner._run_variant((p, '/repo', 'B', f'{pid}-{TAG}{k}', patch))
        if outcome != 'silent': row[p] = (outcome, info)
    return pid, k, 'ok', row

if __name__ == '__main__':
    jobs = []
    for pid in sorted(os.listdir(SRC)):
        d = os.path.join(SRC, pid)
        if not os.path.isdir(d): continue
        for k in sorted(os.listdir(d)):
            sd = os.path.join(d, k)
            if os.path.isfile(os.path.join(sd, 'patch.diff')) and not os.path.isdir(f'/verif/benign/{pid}-{TAG}{k}'):
                jobs.append((pid, k, sd))
    with ProcessPoolExecutor(16) as ex:
        for pid, k, status, row in ex.map(work, jobs):
            print(pid, k, status, json.dumps(row)[:600], flush=True)
            if status == 'ok':
                dest = f'/verif/benign/{pid}-{TAG}{k}'
                os.makedirs(dest, exist_ok=True)
                shutil.copy(os.path.join(SRC, pid, k, 'patch.diff'), dest)
                try: meta = json.load(open(os.path.join(SRC, pid, k, 'meta.json')))
                except Exception: meta = {}
                meta['suite_with_patch'] = '111 passed'
                meta['rules_outcome_when_filed'] = row
                json.dump(meta, open(f'{dest}/meta.json', 'w'), indent=1)
