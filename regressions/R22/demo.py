"""Two distinct handlers that compare equal are two listeners."""
import dataclasses
import os
import sys

sys.path.insert(0, os.getcwd())
import desper  # noqa: E402

log = []


@desper.event_handler('ping')
@dataclasses.dataclass(frozen=True)
class H:
    name: str

    def ping(self):
        log.append(id(self))


d = desper.EventDispatcher()
a, b = H('x'), H('x')
d.add_handler(a)
d.add_handler(b)
d.dispatch('ping')
ok = sorted(log) == sorted([id(a), id(b)])
d.remove_handler(a)
ok = ok and not d.is_handler(a) and d.is_handler(b)
print('PASS' if ok else 'FAIL')
sys.exit(0 if ok else 1)
