"""A resource named like __x is part of the snapshot."""
import os
import sys

sys.path.insert(0, os.getcwd())
import desper  # noqa: E402


class H(desper.Handle):
    def load(self):
        return 42


m = desper.ResourceMap()
m['__x'] = H()
m['sub/__y'] = H()
try:
    s = m.get_static_map()
    ok = s['__x'] == 42 and getattr(s, '__x') == 42 and s['sub']['__y'] == 42
except AttributeError:
    ok = False
print('PASS' if ok else 'FAIL')
sys.exit(0 if ok else 1)
